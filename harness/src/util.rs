//! Deterministic PRNG, hex tokens and the scenario/observation writer.
use std::fmt::Write as _;
use std::io::Write as _;

/// splitmix64 — every random choice of a run derives from one seed (VERIF_SEED).
#[derive(Clone)]
pub struct Rng(pub u64);

impl Rng {
    pub fn new(seed: u64) -> Self {
        Rng(seed ^ 0x9e37_79b9_7f4a_7c15)
    }
    pub fn next(&mut self) -> u64 {
        self.0 = self.0.wrapping_add(0x9e37_79b9_7f4a_7c15);
        let mut z = self.0;
        z = (z ^ (z >> 30)).wrapping_mul(0xbf58_476d_1ce4_e5b9);
        z = (z ^ (z >> 27)).wrapping_mul(0x94d0_49bb_1331_11eb);
        z ^ (z >> 31)
    }
    pub fn below(&mut self, n: u64) -> u64 {
        if n == 0 { 0 } else { self.next() % n }
    }
    pub fn range(&mut self, lo: u64, hi: u64) -> u64 {
        lo + self.below(hi - lo + 1)
    }
    pub fn chance(&mut self, num: u64, den: u64) -> bool {
        self.below(den) < num
    }
    pub fn bytes(&mut self, n: usize) -> Vec<u8> {
        (0..n).map(|_| self.next() as u8).collect()
    }
    pub fn pick<'a, T>(&mut self, xs: &'a [T]) -> &'a T {
        &xs[self.below(xs.len() as u64) as usize]
    }
}

pub fn hex(b: &[u8]) -> String {
    let mut s = String::with_capacity(1 + 2 * b.len());
    s.push('x');
    for x in b {
        write!(s, "{x:02x}").unwrap();
    }
    s
}

pub fn unhex(s: &str) -> Option<Vec<u8>> {
    let s = s.strip_prefix('x')?;
    if s.len() % 2 != 0 {
        return None;
    }
    (0..s.len() / 2)
        .map(|i| u8::from_str_radix(&s[2 * i..2 * i + 2], 16).ok())
        .collect()
}

/// One case: the request line for the model, what the real code did (in the model's output
/// syntax), and the independent property oracle's verdict on the real code's behaviour.
pub struct Case {
    pub request: String,
    pub observed: String,
    /// `None` = oracle satisfied; `Some(why)` = the property fails on the real code for this input
    pub oracle: Option<String>,
    /// label used for the distribution printed into the evidence
    pub class: String,
}

/// Writes `<out>/requests.txt`, `<out>/observed.txt`, `<out>/oracle.txt`, `<out>/classes.txt`
/// (line i of each file belongs to case i).
pub fn write_cases(out: &str, cases: &[Case]) -> std::io::Result<()> {
    std::fs::create_dir_all(out)?;
    let mut rq = std::io::BufWriter::new(std::fs::File::create(format!("{out}/requests.txt"))?);
    let mut ob = std::io::BufWriter::new(std::fs::File::create(format!("{out}/observed.txt"))?);
    let mut or = std::io::BufWriter::new(std::fs::File::create(format!("{out}/oracle.txt"))?);
    let mut cl = std::io::BufWriter::new(std::fs::File::create(format!("{out}/classes.txt"))?);
    for c in cases {
        debug_assert!(!c.request.contains('\n') && !c.observed.contains('\n'));
        writeln!(rq, "{}", c.request)?;
        writeln!(ob, "{}", c.observed)?;
        writeln!(or, "{}", c.oracle.as_deref().unwrap_or("ok").replace('\n', " "))?;
        writeln!(cl, "{}", c.class)?;
    }
    Ok(())
}

pub struct Args {
    pub seed: u64,
    pub cases: usize,
    pub out: String,
    pub thorough: bool,
    pub corpus: Option<String>,
}

pub fn parse_args(args: &[String]) -> Args {
    let mut a = Args { seed: 1, cases: 1000, out: "out".into(), thorough: false, corpus: None };
    let mut i = 0;
    while i < args.len() {
        match args[i].as_str() {
            "--seed" => { a.seed = args[i + 1].parse().expect("seed"); i += 1; }
            "--cases" => { a.cases = args[i + 1].parse().expect("cases"); i += 1; }
            "--out" => { a.out = args[i + 1].clone(); i += 1; }
            "--corpus" => { a.corpus = Some(args[i + 1].clone()); i += 1; }
            "--thorough" => a.thorough = true,
            other => panic!("unknown argument {other}"),
        }
        i += 1;
    }
    a
}

/// corpus files: one request line per line (`#` comments allowed)
pub fn read_corpus(path: &Option<String>) -> Vec<String> {
    let Some(p) = path else { return vec![] };
    let Ok(s) = std::fs::read_to_string(p) else { return vec![] };
    s.lines().map(str::trim).filter(|l| !l.is_empty() && !l.starts_with('#')).map(String::from).collect()
}

// ---------------------------------------------------------------- counting allocator
use std::alloc::{GlobalAlloc, Layout, System};
use std::sync::atomic::{AtomicUsize, Ordering};

/// records the largest single allocation requested since the last reset
pub struct CountingAlloc;
static MAX_ALLOC: AtomicUsize = AtomicUsize::new(0);

unsafe impl GlobalAlloc for CountingAlloc {
    unsafe fn alloc(&self, l: Layout) -> *mut u8 { MAX_ALLOC.fetch_max(l.size(), Ordering::Relaxed); unsafe { System.alloc(l) } }
    unsafe fn dealloc(&self, p: *mut u8, l: Layout) { unsafe { System.dealloc(p, l) } }
    unsafe fn alloc_zeroed(&self, l: Layout) -> *mut u8 { MAX_ALLOC.fetch_max(l.size(), Ordering::Relaxed); unsafe { System.alloc_zeroed(l) } }
    unsafe fn realloc(&self, p: *mut u8, l: Layout, n: usize) -> *mut u8 { MAX_ALLOC.fetch_max(n, Ordering::Relaxed); unsafe { System.realloc(p, l, n) } }
}

pub fn alloc_reset() { MAX_ALLOC.store(0, Ordering::Relaxed); }
pub fn alloc_max() -> usize { MAX_ALLOC.load(Ordering::Relaxed) }
