#!/usr/bin/env python3
"""
Source-fact extractor: /repo -> lean/Passage/Extracted/*.lean   (facts, not logic; DESIGN §3.2)
usage: extract.py <repo> <outdir>
Deliberately dumb (regular expressions + brace matching) and fail-soft: a fact that is not in
the recognised form is emitted as `none`/unparsed and reported on stdout; it never guesses.
"""
import os, re, sys


def read(repo, rel):
    try:
        return open(os.path.join(repo, rel)).read()
    except OSError:
        return None


def const_nat(src, name):
    """`const NAME: T = <expr>;` with an expression of integer literals, `*`, `_`"""
    if src is None:
        return None
    m = re.search(r"const\s+" + name + r"\s*:\s*[^=]+=\s*([^;]+);", src)
    if not m:
        return None
    e = m.group(1).strip()
    m2 = re.fullmatch(r"Duration::from_secs\(([\d_]+)\)", e)
    if m2:
        return int(m2.group(1).replace("_", ""))
    e = e.replace("_", "")
    if not re.fullmatch(r"[\d\s\*]+", e):
        return None
    v = 1
    for f in e.split("*"):
        v *= int(f)
    return v


def write_if_changed(path, body):
    if not os.path.exists(path) or open(path).read() != body:
        open(path, "w").write(body)


def opt(v):
    return "none" if v is None else f"(some {v})"


def match_brace(src, i):
    """index just after the brace block that opens at src[i] == '{'"""
    depth = 0
    j = i
    n = len(src)
    while j < n:
        c = src[j]
        if c == '"':
            j += 1
            while j < n and src[j] != '"':
                j += 2 if src[j] == "\\" else 1
        elif src.startswith("//", j):
            j = src.find("\n", j)
            if j < 0:
                return n
        elif c == "{":
            depth += 1
        elif c == "}":
            depth -= 1
            if depth == 0:
                return j + 1
        j += 1
    return n


def block_after(src, pattern, start=0):
    m = re.compile(pattern).search(src, start)
    if not m:
        return None
    i = src.find("{", m.end() - 1)
    if i < 0:
        return None
    return src[i:match_brace(src, i)]


def fn_body(impl_block, fn_name):
    m = re.search(r"fn\s+" + fn_name + r"\b", impl_block)
    if not m:
        return None
    # the body is the first '{' after the signature's where clause: skip to the '{' that follows ')'
    i = impl_block.find("{", m.end())
    # `where S: ... ,` has no braces, so the first '{' opens the body
    return impl_block[i:match_brace(impl_block, i)]


WRITE_SIMPLE = {"string": "string", "bytes": "bytes", "u8": "u8", "i8": "i8", "u16": "u16", "i32": "i32",
                "u64": "u64", "uuid": "uuid", "text_component": "text"}
READ_SIMPLE = {"string": "string", "bool": "bool", "u8": "u8", "i8": "i8", "u16": "u16", "i32": "i32",
               "u64": "u64", "uuid": "uuid", "text_component": "text"}


def depth_at(body, pos):
    d = 0
    for c in body[:pos]:
        if c == "{":
            d += 1
        elif c == "}":
            d -= 1
    return d - 1   # the body's own brace


def write_ops(body):
    ops = []
    for m in re.finditer(r"buffer\s*\.\s*write_(\w+)\s*\(", body):
        kind = m.group(1)
        # argument text up to the matching ')'
        i = m.end() - 1
        d = 0
        j = i
        while j < len(body):
            if body[j] == "(":
                d += 1
            elif body[j] == ")":
                d -= 1
                if d == 0:
                    break
            j += 1
        arg = re.sub(r"\s+", "", body[i + 1:j])
        if kind == "varint":
            if arg == "0":
                op = "varintZero"
            elif arg.endswith(".into()"):
                op = "varintInto"
            elif arg.startswith("VarInt::from("):
                op = "varintFrom"
            elif re.fullmatch(r"self\.\w+", arg):
                op = "varint"
            else:
                return None
        elif kind == "bool":
            op = "boolIsSome" if arg.endswith(".is_some()") else "bool"
        elif kind in WRITE_SIMPLE:
            op = WRITE_SIMPLE[kind]
        else:
            return None
        ops.append(f"(.q .{op})" if depth_at(body, m.start()) > 0 else f".{op}")
    return ops


def read_ops(body):
    ops = []
    for m in re.finditer(r"buffer\s*\.\s*read_(\w+)\s*\(\s*\)\s*\.\s*await\s*\?", body):
        kind = m.group(1)
        tail = body[m.end():]
        tail = tail[:tail.find(";")] if ";" in tail else tail
        # stop at a block opening (an `if cond {`): what follows belongs to other statements
        tail = tail.split("{")[0]
        tail = re.sub(r"\s+", "", tail)
        if kind == "varint":
            if ".try_into()" in tail:
                op = "varintTryInto"
            elif tail.startswith("asu16"):
                op = "varintAsU16"
            elif tail in ("", ")"):
                op = "varint"
            else:
                return None
        elif kind == "bytes":
            if ".try_into()" in tail:
                op = "bytesTryInto"
            elif tail in ("", ")"):
                op = "bytes"
            else:
                return None
        elif kind in READ_SIMPLE:
            op = READ_SIMPLE[kind]
        else:
            return None
        ops.append(f"(.q .{op})" if depth_at(body, m.start()) > 0 else f".{op}")
    return ops


def extract_packets(repo, notes):
    facts = []
    for phase, fname in enumerate(["handshake.rs", "status.rs", "login.rs", "configuration.rs"]):
        src = read(repo, "passage-packets/src/" + fname)
        if src is None:
            notes.append(f"extraction: unparsed packets ({fname} unreadable)")
            return None
        # drop the test module
        t = src.find("#[cfg(test)]\nmod tests")
        if t >= 0:
            src = src[:t]
        for d, mod in enumerate(["clientbound", "serverbound"]):
            blk = block_after(src, r"pub\s+mod\s+" + mod + r"\s*\{")
            if blk is None:
                continue
            names = re.findall(r"impl\s+Packet\s+for\s+(\w+)", blk)
            for name in names:
                pb = block_after(blk, r"impl\s+Packet\s+for\s+" + name + r"\s*\{")
                m = re.search(r"const\s+ID\s*:\s*VarInt\s*=\s*(0x[0-9A-Fa-f]+|\d+)\s*;", pb or "")
                wb = block_after(blk, r"impl\s+WritePacket\s+for\s+" + name + r"\s*\{")
                rb = block_after(blk, r"impl\s+ReadPacket\s+for\s+" + name + r"\s*\{")
                if not m or wb is None or rb is None:
                    notes.append(f"extraction: unparsed packets ({fname}::{mod}::{name})")
                    return None
                wbody, rbody = fn_body(wb, "write_to_buffer"), fn_body(rb, "read_from_buffer")
                if wbody is None or rbody is None:
                    notes.append(f"extraction: unparsed packets ({fname}::{mod}::{name} fn)")
                    return None
                w, r = write_ops(wbody), read_ops(rbody)
                if w is None or r is None:
                    notes.append(f"extraction: unparsed packets ({fname}::{mod}::{name} ops)")
                    return None
                facts.append((phase, d, int(m.group(1), 0), w, r, f"{fname[:-3]}.{name}"))
    if len(facts) < 10:
        notes.append("extraction: unparsed packets (too few found)")
        return None
    return facts


def extract_enums(repo, notes):
    src = read(repo, "passage-packets/src/lib.rs")
    if src is None:
        notes.append("extraction: unparsed enums")
        return None
    out = []
    for m in re.finditer(r"impl\s+From<(\w+)>\s+for\s+VarInt\s*\{", src):
        e = m.group(1)
        blk = src[m.end() - 1:match_brace(src, m.end() - 1)]
        fwd = {v: int(n) for v, n in re.findall(e + r"::(\w+)\s*=>\s*(\d+)", blk)}
        tb = block_after(src, r"impl\s+TryFrom<VarInt>\s+for\s+" + e + r"\s*\{")
        if tb is None or not fwd:
            notes.append(f"extraction: unparsed enums ({e})")
            return None
        back = {v: int(n) for n, v in re.findall(r"(\d+)\s*=>\s*Ok\(\s*" + e + r"::(\w+)\s*\)", tb)}
        has_reject = re.search(r"_\s*=>\s*Err\(", tb) is not None
        # the table is matched against the full 32-bit ordinal (not a cast or a masked value)
        full_width = re.search(r"fn\s+try_from\s*\(\s*value\s*:\s*VarInt\s*\)", tb) is not None and re.search(r"match\s+value\s*\{", tb) is not None
        has_reject = has_reject and full_width
        vals = sorted(fwd.values())
        contiguous = vals == list(range(vals[0], vals[0] + len(vals)))
        if fwd == back and contiguous and has_reject:
            out.append((vals[0], len(vals)))
        else:
            out.append((999, 0))   # a fact, not a parse failure: the tables disagree or have gaps
            notes.append(f"extraction: enum {e} tables inconsistent: {fwd} vs {back}")
    return out


PANIC_FILES = ["passage-packets/src/reader.rs", "passage-protocol/src/connection.rs",
               "passage-protocol/src/crypto/mod.rs", "passage-protocol/src/crypto/stream.rs", "passage-protocol/src/error.rs"]
PANIC_PATTERNS = [
    ("expect", r"\.expect\("), ("unwrap", r"\.unwrap\(\)"), ("panic", r"\b(panic|unreachable|todo|unimplemented|assert|assert_eq|assert_ne|debug_assert)!\("),
    ("index", r"[\w\)\]]\[[^\]\n]*\]"), ("cast", r"\bas\s+(usize|u8|u16|u32|u64|u128|i8|i16|i32|i64|VarInt|VarLong|Protocol)\b"),
    ("alloc", r"vec!\[[^;\]]+;\s*[^\]\d][^\]]*\]|with_capacity\(\s*[^\)\d][^\)]*\)"),
    ("arith", r"[\w\)]\s(\+|-|\*|<<)\s[\w\(]"),
]


def strip_rust_comments(src):
    out = []
    i = 0
    n = len(src)
    while i < n:
        if src.startswith("//", i):
            j = src.find("\n", i)
            i = n if j < 0 else j
        elif src.startswith("/*", i):
            j = src.find("*/", i)
            i = n if j < 0 else j + 2
        elif src[i] == '"':
            j = i + 1
            while j < n and src[j] != '"':
                j += 2 if src[j] == "\\" else 1
            out.append('""')
            i = j + 1
        else:
            out.append(src[i])
            i += 1
    return "".join(out)


def extract_panic_sites(repo, notes):
    """every syntactic panic / cast / allocation / arithmetic site of the anchored files, keyed by
    (file, enclosing fn, kind, normalised line text) — not by line number"""
    import hashlib
    sites = []
    for rel in PANIC_FILES:
        src = read(repo, rel)
        if src is None:
            notes.append(f"extraction: unparsed panic sites ({rel} unreadable)")
            return None
        t = src.find("#[cfg(test)]\nmod tests")
        if t >= 0:
            src = src[:t]
        src = strip_rust_comments(src)
        fn = "<top>"
        for line in src.split("\n"):
            m = re.search(r"\bfn\s+(\w+)", line)
            if m:
                fn = m.group(1)
            text = re.sub(r"\s+", "", line)
            if not text or text.startswith("#[") or text.startswith("use"):
                continue
            for kind, pat in PANIC_PATTERNS:
                if re.search(pat, line):
                    if kind == "index" and re.search(r"(vec!\[|&\[\]|:\s*\[|=\s*\[|\[\(&|\[u8;|#\[)", line) and not re.search(r"\w\[[^\];]*\.\.[^\]]*\]|\w\[\w+\]", line):
                        continue
                    if kind == "arith" and (re.search(r"\bfn\b|\bimpl\b|\bwhere\b|->", line) or re.search(r"^\s*\w+\s*:\s*[A-Z]\w*(\s*\+\s*[A-Z]\w*)*\s*,?\s*$", line) or re.search(r"[A-Z]\w*\s\+\s[A-Z]\w*", line)):
                        continue
                    key = f"{rel}|{fn}|{kind}|{text}"
                    h = int.from_bytes(hashlib.sha256(key.encode()).digest()[:6], "big")
                    if all(h != x for x, _ in sites):
                        sites.append((h, key))
    return sites


def fn_block(src, name):
    m = re.search(r"\bfn\s+" + name + r"\b", src)
    if not m:
        return None
    # skip the signature: first '{' that is followed by a statement, i.e. after the where-clause / return type
    i = src.find("{", m.end())
    # generic bounds like `A: ToSocketAddrs` contain no braces, so this is the body
    return src[i:match_brace(src, i)]


def builder_calls(text, ctor):
    """`.with_x(arg)` calls chained directly on `<ctor>(...)`"""
    i = text.find(ctor + "(")
    if i < 0:
        return None
    j = i + len(ctor)
    depth = 0
    while j < len(text):
        if text[j] == "(":
            depth += 1
        elif text[j] == ")":
            depth -= 1
            if depth == 0:
                break
        j += 1
    rest = text[j + 1:]
    calls = []
    while True:
        m = re.match(r"\s*\.\s*(with_\w+)\s*\(", rest)
        if not m:
            break
        k = m.end() - 1
        depth = 0
        e = k
        while e < len(rest):
            if rest[e] == "(":
                depth += 1
            elif rest[e] == ")":
                depth -= 1
                if depth == 0:
                    break
            e += 1
        calls.append((m.group(1), re.sub(r"\s+", "", rest[k + 1:e])))
        rest = rest[e + 1:]
    return calls


def extract_listener(repo, notes):
    src = read(repo, "passage-protocol/src/listener.rs")
    lib = read(repo, "src/lib.rs")
    if src is None or lib is None:
        notes.append("extraction: unparsed listener (unreadable)")
        return None
    src = strip_rust_comments(src)
    lib = strip_rust_comments(lib)
    listen = fn_block(src, "listen")
    handle = fn_block(src, "handle")
    if listen is None or handle is None:
        notes.append("extraction: unparsed listener (fn listen/handle not found)")
        return None
    f = {}
    # accept loop
    sel = re.search(r"select!\s*\{", listen)
    if not sel:
        notes.append("extraction: unparsed listener (no select! in listen)")
        return None
    selblk = listen[sel.end() - 1:match_brace(listen, sel.end() - 1)]
    first = selblk.find("stop.cancelled()")
    acc = selblk.find("listener.accept()")
    f["stopBiased"] = bool(re.search(r"\{\s*biased\s*;", selblk)) and 0 <= first < acc
    f["closesTracker"] = "tracker.close()" in listen[sel.end():]
    f["waitsTracker"] = bool(re.search(r"tracker\.wait\(\)\s*\.await", listen[sel.end():]))
    handle_awaited = bool(re.search(r"self\.handle\([^)]*\)\s*\.await", listen))
    spawn = handle.find("tracker.spawn(")
    if spawn < 0:
        notes.append("extraction: unparsed listener (no tracker.spawn in handle)")
        return None
    before, after = handle[:spawn], handle[spawn:]
    # awaits on the client before the per-connection task exists (classification table: the PROXY
    # header read is client input; shutdown of the socket is local i/o)
    hdr_before = "create_from_tokio" in before and ".await" in before[before.find("create_from_tokio"):]
    f["clientInputBeforeSpawn"] = handle_awaited and hdr_before
    hdr = handle.find("create_from_tokio")
    f["headerUnderDeadline"] = hdr >= 0 and bool(re.search(r"timeout(_at)?\s*\(\s*[^;]*create_from_tokio", handle))
    f["listenUnderDeadline"] = bool(re.search(r"timeout(_at)?\s*\(\s*\w+\s*,\s*connection\.listen\(\)\s*\)", after))
    one_deadline = bool(re.search(r"timeout_at\s*\(\s*deadline\s*,\s*connection\.listen", after)) and (hdr < 0 or bool(re.search(r"timeout_at\s*\(\s*deadline\s*,\s*ProxiedStream::create_from_tokio", handle)) or "create_from_tokio" not in handle)
    f["singleDeadlineFromAccept"] = one_deadline and bool(re.search(r"deadline\s*=\s*connection_start\s*\+\s*connection_timeout", handle))
    tl = after.find("connection.listen()")
    f["shutdownAfterListen"] = tl >= 0 and bool(re.search(r"stream\.shutdown\(\)\s*\.await", after[tl:]))
    f["limiterBeforeConnection"] = 0 <= handle.find(".enqueue(") < handle.find("Connection::new(")
    f["limiterOnEffectiveAddr"] = bool(re.search(r"\.enqueue\(\s*client_addr\.ip\(\)\s*\)", handle))
    calls = builder_calls(handle, "Connection::new")
    lcalls = builder_calls(lib, "Listener::new")
    if calls is None or lcalls is None:
        notes.append("extraction: unparsed listener (builder chains)")
        return None
    want_conn = {"with_client_address": "client_addr", "with_auth_secret": "auth_secret", "with_max_packet_length": "max_packet_length", "with_auth_cookie_expiry": "auth_cookie_expiry"}
    cd = dict(calls)
    f["connAddr"] = cd.get("with_client_address") == "client_addr"
    f["connSecret"] = cd.get("with_auth_secret") == "auth_secret" and bool(re.search(r"let\s+auth_secret\s*=\s*self\.auth_secret\.clone\(\)", handle))
    f["connMaxLen"] = cd.get("with_max_packet_length") == "max_packet_length" and bool(re.search(r"let\s+max_packet_length\s*=\s*self\.max_packet_length", handle))
    f["connExpiry"] = cd.get("with_auth_cookie_expiry") == "auth_cookie_expiry" and bool(re.search(r"let\s+auth_cookie_expiry\s*=\s*self\.auth_cookie_expiry", handle))
    f["connTimeout"] = bool(re.search(r"let\s+connection_timeout\s*=\s*self\.connection_timeout", handle))
    ld = dict(lcalls)
    f["cfgSecret"] = ld.get("with_auth_secret") == "auth_secret" and "config.auth_secret.clone().map(String::into_bytes)" in re.sub(r"\s+", "", lib)
    f["cfgTimeout"] = ld.get("with_connection_timeout") == "timeout_duration" and "Duration::from_secs(config.timeout)" in re.sub(r"\s+", "", lib)
    f["cfgMaxLen"] = ld.get("with_max_packet_length") in ("config.max_packet_lengthasi32", "i32::try_from(config.max_packet_length).unwrap_or(i32::MAX)")
    f["cfgExpiry"] = ld.get("with_auth_cookie_expiry") == "config.auth_cookie_expiry"
    libflat = re.sub(r"\s+", "", lib)
    f["cfgLimiter"] = ld.get("with_rate_limiter") == "rate_limiter" and "letrate_limiter=config.rate_limiter.map(|config|{RateLimiter::<IpAddr>::new(Duration::from_secs(config.duration),config.limit)});" in libflat
    pp = ld.get("with_proxy_protocol") or ""
    f["cfgProxy"] = pp.startswith("config.proxy_protocol.map(") and "allow_v1:config.allow_v1" in pp and "allow_v2:config.allow_v2" in pp
    return f, calls, lcalls


def main():
    repo, out = sys.argv[1], sys.argv[2]
    os.makedirs(out, exist_ok=True)
    notes = []
    conn = read(repo, "passage-protocol/src/connection.rs")
    lst = read(repo, "passage-protocol/src/listener.rs")
    consts = {
        "defaultMaxPacketLength": const_nat(conn, "DEFAULT_MAX_PACKET_LENGTH"),
        "defaultAuthCookieExpiry": const_nat(conn, "DEFAULT_AUTH_COOKIE_EXPIRY"),
        "keepAliveInterval": const_nat(conn, "KEEP_ALIVE_INTERVAL"),
        "defaultConnectionTimeout": const_nat(lst, "DEFAULT_CONNECTION_TIMEOUT"),
    }
    rd = read(repo, "passage-packets/src/reader.rs")
    for fn, key in [("read_varint", "readVarintGroups"), ("read_varlong", "readVarlongGroups")]:
        v = None
        if rd is not None:
            m = re.search(r"async\s+fn\s+" + fn + r"\b", rd)
            if m:
                i = rd.find("{", m.end())
                body = rd[i:match_brace(rd, i)]
                loops = re.findall(r"for\s+\w+\s+in\s+0\s*\.\.\s*(\d+)\s*\{", body)
                if len(loops) == 1:
                    v = int(loops[0])
        consts[key] = v
    for k, v in consts.items():
        if v is None:
            notes.append(f"extraction: unparsed constant {k}")
    body = "/- GENERATED by extract/extract.py from /repo on every run — do not edit. -/\nnamespace Passage.Extracted\n\n"
    for k, v in consts.items():
        body += f"def {k} : Option Nat := {opt(v)}\n"
    body += "\nend Passage.Extracted\n"
    path = os.path.join(out, "Constants.lean")
    write_if_changed(path, body)
    print(f"extracted constants: {consts}")
    facts = extract_packets(repo, notes)
    enums = extract_enums(repo, notes)
    body = "import Passage.Codec.Packets\n/- GENERATED by extract/extract.py from /repo on every run — do not edit. -/\nnamespace Passage.Extracted\nopen Passage.Codec Passage.Codec.Op\n\n"
    if facts is None:
        body += "def packets : Option (List PacketFact) := none\n"
    else:
        body += "def packets : Option (List PacketFact) := some [\n"
        body += ",\n".join(f"  ({p}, {d}, {i}, [{', '.join(w)}], [{', '.join(r)}])  -- {n}" .replace("  -- ", " /- ").rstrip() + " -/" for p, d, i, w, r, n in facts)
        body += "]\n"
    if enums is None:
        body += "def enums : Option (List EnumFact) := none\n"
    else:
        body += "def enums : Option (List EnumFact) := some [" + ", ".join(f"({a}, {b})" for a, b in enums) + "]\n"
    body += "\nend Passage.Extracted\n"
    write_if_changed(os.path.join(out, "Packets.lean"), body)
    print(f"extracted packets: {None if facts is None else len(facts)}; enums: {enums}")
    sites = extract_panic_sites(repo, notes)
    body = "/- GENERATED by extract/extract.py from /repo on every run — do not edit. -/\nnamespace Passage.Extracted\n\n"
    if sites is None:
        body += "def panicSites : Option (List Nat) := none\n"
    else:
        body += "/-- hash of (file | fn | kind | normalised line) for every syntactic panic, cast, sized\n    allocation or arithmetic site of the files anchored by C04 -/\ndef panicSites : Option (List Nat) := some [\n"
        body += ",\n".join(f"  {h} /- {k.replace('-/', '- /')} -/" for h, k in sites)
        body += "]\n"
    body += "\nend Passage.Extracted\n"
    write_if_changed(os.path.join(out, "PanicSites.lean"), body)
    print(f"extracted panic sites: {None if sites is None else len(sites)}")
    lf = extract_listener(repo, notes)
    body = "/- GENERATED by extract/extract.py from /repo on every run — do not edit. -/\nnamespace Passage.Extracted\n\n"
    body += "structure ListenerFacts where\n"
    keys = ["stopBiased", "closesTracker", "waitsTracker", "clientInputBeforeSpawn", "headerUnderDeadline", "listenUnderDeadline",
            "singleDeadlineFromAccept", "shutdownAfterListen", "limiterBeforeConnection", "limiterOnEffectiveAddr",
            "connAddr", "connSecret", "connMaxLen", "connExpiry", "connTimeout", "cfgSecret", "cfgTimeout", "cfgMaxLen", "cfgExpiry", "cfgLimiter", "cfgProxy"]
    for k in keys:
        body += f"  {k} : Bool\n"
    body += "  deriving DecidableEq, Repr\n\n"
    if lf is None:
        body += "def listener : Option ListenerFacts := none\n"
    else:
        f, calls, lcalls = lf
        body += f"/- Connection builder chain in Listener::handle: {calls}\n   Listener builder chain in passage::start: {lcalls} -/\n"
        body += "def listener : Option ListenerFacts := some {\n" + ",\n".join(f"  {k} := {'true' if f[k] else 'false'}" for k in keys) + " }\n"
    body += "\nend Passage.Extracted\n"
    write_if_changed(os.path.join(out, "Listener.lean"), body)
    print(f"extracted listener facts: {None if lf is None else {k: v for k, v in lf[0].items()}}")
    for n in notes:
        print(n)


if __name__ == "__main__":
    main()
