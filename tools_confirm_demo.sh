#!/bin/bash
# Confirms one seeded change in a scratch worktree /tmp/seedverify (git -C /repo worktree add --detach /tmp/seedverify HEAD):
# applies patch.diff, runs the full suite, places the demonstration per its RUN.md, runs it on the modified and on the original tree.
# Outputs live under /tmp/seed/<Cnn><round>.out/<k>/ (R=r4 selects the round); nothing here is used by a registered check.
# confirm6.sh <Cxx> <k> <mode> <pkg> <testname-or-args> [features]   (mode: roottest|cratetest|scratchtest|scratchrun)
# copies demo files, runs full suite + demo on modified tree, then demo on original tree
c=$1; k=$2; mode=$3; pkg=$4; t=$5; feat=${6:-}
d=/tmp/seed/${c}${R:-r3}.out/$k; W=/tmp/seedverify
export CARGO_NET_OFFLINE=true CARGO_TARGET_DIR=/tmp/seedverify/target RUST_BACKTRACE=0
cd $W && git checkout -q -- . && git clean -fdq -e target
git apply $d/patch.diff || { echo "$c/$k APPLY-FAIL"; exit 1; }
suite=$(cargo test --workspace --no-fail-fast --offline 2>&1 | grep "test result" | awk '{p+=$4; f+=$6} END {print p"/"f}')
place() {
  case $mode in
    roottest) mkdir -p $W/tests; cp -r $d/demo/*.rs $W/tests/ 2>/dev/null; for x in $d/demo/*/; do [ -f $x/mod.rs ] && cp -r $x $W/tests/; done; [ -d $d/demo/tests ] && cp -r $d/demo/tests/* $W/tests/;;
    cratetest) mkdir -p $W/$pkg/tests; cp -r $d/demo/*.rs $W/$pkg/tests/ 2>/dev/null; for x in $d/demo/*/; do [ -f $x/mod.rs ] && cp -r $x $W/$pkg/tests/; done; [ -d $d/demo/tests ] && cp -r $d/demo/tests/* $W/$pkg/tests/;;
    scratch*) sub=$(ls -d $d/demo/*/ | head -1); sub=$(basename $sub); rm -rf $W/$sub; cp -r $d/demo/$sub $W/$sub; cp $W/Cargo.lock $W/$sub/Cargo.lock; SUB=$sub;;
  esac
}
run() {
  case $mode in
    roottest|cratetest) (cd $W && cargo test --offline -p $pkg $feat --test $t --no-run >/dev/null 2>&1; [ -n "${ULIMIT:-}" ] && ulimit -n $ULIMIT; cargo test --offline -p $pkg $feat --test $t -- --nocapture --test-threads=1 2>&1 | grep "test result" | awk '{p+=$4; f+=$6} END {print p"p/"f"f"}');;
    scratchtest) (cd $W/$SUB && cargo test --offline --test $t -- --nocapture --test-threads=1 2>&1 | grep "test result" | awk '{p+=$4; f+=$6} END {print p"p/"f"f"}');;
    scratchrun) (cd $W/$SUB && cargo run --offline -- $t >/dev/null 2>&1; echo "exit=$?");;
    scratchbin) (cd $W/$SUB && cargo run --offline -q --bin $t >/dev/null 2>&1; echo "exit=$?");;
  esac
}
# C03r3/2 has one file for the root crate and one for passage-protocol
if [ "$c/$k" = "C03/2" ] && [ "${R:-r3}" = r3 ]; then mkdir -p $W/tests $W/passage-protocol/tests; cp $d/demo/c03r3_default_locale.rs $W/passage-protocol/tests/; cp $d/demo/c03r3_default_locale_config.rs $W/tests/; else place; fi
[ -n "${EXTRA_DIFF:-}" ] && git apply $d/demo/$EXTRA_DIFF
m=$(run); git checkout -q -- .; [ -n "${EXTRA_DIFF:-}" ] && git apply $d/demo/$EXTRA_DIFF; o=$(run); git checkout -q -- .; git clean -fdq -e target
echo "${c}${R:-r3}/$k suite=$suite demo_modified:[$m] demo_original:[$o]"
