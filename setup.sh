#!/bin/sh
# MANIFEST.setup_cmd: build the framework from files on disk only (offline).
set -e
cd "$(dirname "$0")"
export CARGO_NET_OFFLINE=true
python3 extract/extract.py "${PASSAGE_REPO:-/repo}" lean/Passage/Extracted
(cd lean && lake build Passage passage-model)
cp "${PASSAGE_REPO:-/repo}/Cargo.lock" harness/Cargo.lock
cp "${PASSAGE_REPO:-/repo}/Cargo.lock" harness/Cargo.lock.src
(cd harness && cargo build --offline)
echo "setup ok"
