#!/bin/bash
# usage: tools_seedtest.sh <patch.diff> <Cnn> [Cnn...]   — applies a seeded change to /repo, runs the checks, reverts
set -u
patch="$1"; shift
cd /repo || exit 2
if [ -n "$(git status --porcelain --untracked-files=no)" ]; then echo "/repo not clean"; exit 2; fi
git apply "$patch" || { echo "patch does not apply"; exit 2; }
for c in "$@"; do
  out=$(cd /verif && ./check "$c" 2>&1 | tail -4)
  echo "== $c: $(echo "$out" | grep -E 'VIOLATION|KNOWN' | head -2 | tr '\n' ' ') $(echo "$out" | tail -1)"
done
git -C /repo checkout -- .
